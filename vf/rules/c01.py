"""C01 — JSON and Smile wrappers round-trip every Conjure value (structural clauses R1.1–R1.7)."""
import json
from ..facts import ty_adt, tystr, strip_refs, op_place, place_local, walk_ty, const_value
from ..cfg import CFG, Tracer, thaw
from .. import serdewrap as sw
from .. import dt

SER_BEH = "conjure_serde::ser::Behavior"
DE_BEH = "conjure_serde::de::Behavior"
SPELL = {"NaN": "NaN", "Infinity": "inf", "-Infinity": "-inf"}
B64_STD = "base64::engine::general_purpose::STANDARD"

EXPLANATION = (
    "Decides structurally (on the type-checked MIR of conjure_serde) that every serde entry point of the Override "
    "wrappers re-wraps every nested carrier with the right behaviour (R1.1 ser, R1.2 de: type arguments of resolved "
    "callees, slots taken from serde's own trait-method bounds), that the six public entry types bind the right "
    "behaviour to every method (R1.3), that no provided trait method is silently left to a serde default outside a "
    "reasoned allow-list (R1.4), that the Conjure spellings of non-finite floats, boolean keys and Base64 agree "
    "between writer and reader (R1.5), that all 12 convenience functions validate end of input before returning Ok "
    "(R1.6) and that the forwarding helper types forward to the same-named method (R1.7). Induction over value depth "
    "follows from R1.1/R1.2. NOT decided: that serde_json / serde-smile round-trip their own data model, finite "
    "float text, serde-derive's calls.")


def behavior_impls(crate, beh_trait):
    out = {}
    for i in crate.impls_of(beh_trait):
        out[json.dumps(i["self_ty"], sort_keys=True)] = i
    return out


def find_beh_impl(crate, beh_trait, ty):
    """impl of the behaviour trait for (the ADT of) ty"""
    for i in crate.impls_of(beh_trait):
        if ty_adt(i["self_ty"]) == ty_adt(ty):
            return i
    return None


def entry_kind(i):
    name = ty_adt(i["self_ty"]).split("::")[-1]
    path = ty_adt(i["self_ty"])
    fmt = "json" if "::json::" in path else "smile" if "::smile::" in path else "?"
    role = {"Serializer": "ser", "ClientDeserializer": "client", "ServerDeserializer": "server"}.get(name)
    return fmt, role


def run_wrap(ctx, c, which=("ser", "de")):
    """R1.1–R1.4; returns dict with wrappers and bound behaviours (also used by C05)"""
    res = {}
    if "ser" in which:
        W = sw.find_wrapper(ctx, c, sw.SER + "Serializer", SER_BEH, "R1.3")
        res["W_ser"] = W
        if W:
            n = sw.check_wrapper_impls(ctx, c, W, sw.SER_TRAITS, SER_BEH, sw.SER_CARRIERS, "R1.1")
            ctx.floor("R1.1", "serializer carrier slots + compound associated types", n, 23)
    W = sw.find_wrapper(ctx, c, sw.DE + "Deserializer", DE_BEH, "R1.3")
    res["W_de"] = W
    if W:
        n = sw.check_wrapper_impls(ctx, c, W, sw.DE_TRAITS, DE_BEH, sw.DE_CARRIERS, "R1.2")
        ctx.floor("R1.2", "deserializer carrier slots", n, 51)
    # ---- R1.3 entry points
    bound = {}
    for trait, beh, wkey in ((sw.SER + "Serializer", SER_BEH, "W_ser"), (sw.DE + "Deserializer", DE_BEH, "W_de")):
        if wkey == "W_ser" and "ser" not in which:
            continue
        for i in sw.entry_impls(c, trait):
            fmt, role = entry_kind(i)
            if role is None:
                continue
            b = sw.check_entry_impl(ctx, c, i, res.get(wkey), beh, "R1.3")
            if b is not None:
                bound[(fmt, role)] = b
    res["bound"] = bound
    need = [("json", "client"), ("json", "server"), ("smile", "client"), ("smile", "server")]
    if "ser" in which:
        need += [("json", "ser"), ("smile", "ser")]
    for k in need:
        if k not in bound:
            ctx.violation("R1.3", c.name, f"entry-missing|{k[0]}|{k[1]}", f"public entry type for {k} not found or inconsistent")
    # role expectations
    ufb = None  # the strict-unknown-fields behaviour: generic Behavior impl that overrides deserialize_struct
    for i in c.impls_of(DE_BEH):
        if "adt" in i["self_ty"] and i["self_ty"]["args"] and "deserialize_struct" in i["items"]:
            ufb = ty_adt(i["self_ty"])
    res["ufb"] = ufb
    if ufb is None:
        ctx.violation("R1.3", c.name, "anchor|unknown-fields-behaviour", "no generic de::Behavior impl overriding deserialize_struct found")
    for fmt in ("json", "smile"):
        cl, sv = bound.get((fmt, "client")), bound.get((fmt, "server"))
        if cl is None or sv is None:
            continue
        ctx.check(ty_adt(cl) != ufb and not cl.get("args"), "R1.3", c.name, f"{fmt}|client-behaviour",
                  f"{fmt} client deserializer is bound to {tystr(cl)}; clients must not use the strict unknown-fields behaviour",
                  instance=f"{fmt} client -> {tystr(cl)}")
        # (the wrapper may carry const parameters — knobs — besides the wrapped behaviour: the servers' values are recorded and the
        # wrapper's methods are read at that instantiation, see C05)
        sv_consts = [a_ for a_ in sv.get("args", [])[1:]]
        res.setdefault("ufb_consts", {})[fmt] = sv_consts
        ctx.check(ty_adt(sv) == ufb and len(sv.get("args", [])) >= 1 and all("const" in a_ for a_ in sv_consts) and sw.ty_eq(sv["args"][0], cl), "R1.3", c.name,
                  f"{fmt}|server-behaviour",
                  f"{fmt} server deserializer is bound to {tystr(sv)}, expected {ufb}<{tystr(cl)}> (strict wrapper around the client behaviour)",
                  instance=f"{fmt} server -> {tystr(sv)}")
    # key behaviours: idempotent; Smile uses JSON's key spellings
    for beh, roles in ((SER_BEH, ["ser"]), (DE_BEH, ["client"])):
        if beh == SER_BEH and "ser" not in which:
            continue
        keys = {}
        for fmt in ("json", "smile"):
            for role in roles:
                b = bound.get((fmt, role))
                if b is None:
                    continue
                bi = find_beh_impl(c, beh, b)
                if bi is None:
                    ctx.violation("R1.3", c.name, f"beh-impl|{tystr(b)}", f"no impl of {beh} for {tystr(b)}")
                    continue
                kb = bi["assoc_tys"].get("KeyBehavior")
                keys[fmt] = kb
                ki = find_beh_impl(c, beh, kb) if kb else None
                kk = ki["assoc_tys"].get("KeyBehavior") if ki else None
                ctx.check(ki is not None and kk is not None and sw.ty_eq(kk, kb), "R1.3", f"{bi['file']}:{bi['line']}",
                          f"{tystr(b)}|key-idempotent", f"KeyBehavior of {tystr(kb)} is {tystr(kk)}; must be itself",
                          instance=f"{tystr(b)}::KeyBehavior = {tystr(kb)} (idempotent)")
        if "json" in keys and "smile" in keys:
            ctx.check(sw.ty_eq(keys["json"], keys["smile"]), "R1.3", c.name, f"{beh}|smile-key=json-key",
                      f"Smile key behaviour {tystr(keys['smile'])} differs from JSON's {tystr(keys['json'])} (same key spellings required)",
                      instance=f"{beh}: smile key behaviour = json key behaviour = {tystr(keys['json'])}")
    # unknown-fields behaviour's KeyBehavior keeps strictness and the inner key behaviour
    if ufb:
        for i in c.impls_of(DE_BEH):
            if ty_adt(i["self_ty"]) == ufb:
                kb = i["assoc_tys"].get("KeyBehavior")
                bp = i["self_ty"]["args"][0]
                # (const parameters of the wrapper must be handed to the key behaviour unchanged)
                exp = {"adt": ufb, "args": [sw.key_behavior_of(bp, DE_BEH)] + [a_ for a_ in i["self_ty"]["args"][1:] if "const" in a_]}
                ctx.check(kb is not None and sw.ty_eq(kb, exp), "R5.1", f"{i['file']}:{i['line']}", "ufb|KeyBehavior",
                          f"{ufb}::KeyBehavior is {tystr(kb)}, expected {tystr(exp)}", instance=f"{ufb}::KeyBehavior = {tystr(kb)}")
    # ---- R1.4 surface completeness (wrappers, entry types, transparent forwarders)
    scope = []
    fw = forwarder_adts(c)
    res["forwarders"] = fw
    for i in c.impls:
        tr = i.get("trait") or ""
        if not (tr.startswith(sw.SER) or tr.startswith(sw.DE)):
            continue
        if tr.startswith(sw.SER) and "ser" not in which:
            continue
        a = ty_adt(i["self_ty"])
        is_entry = "ref" in i["self_ty"] and i in sw.entry_impls(c, tr)
        if a in (res.get("W_ser"), res.get("W_de")) and "adt" in i["self_ty"] or is_entry or (a in fw and "adt" in i["self_ty"]):
            scope.append(i)
    n = sw.check_surface(ctx, c, scope, "R1.4", only={
        "ser-wrapper": lambda i: ty_adt(i["self_ty"]) == res.get("W_ser") and "adt" in i["self_ty"],
        "text-carrier": lambda i: False,
    })
    ctx.units["serde impls in surface scope"] = len(scope)
    return res


def forwarder_adts(c):
    """local ADTs whose serde Visitor/Deserializer impl forwards every call to a local helper trait
    (DelegatingVisitor, DelegatingDeserializer, WrappingDeserializer today) — found by role"""
    out = set()
    for i in c.impls:
        tr = i.get("trait") or ""
        if tr not in (sw.DE + "Visitor", sw.DE + "Deserializer"):
            continue
        a = ty_adt(i["self_ty"]) or ""
        if "ref" in i["self_ty"] or not a.startswith(c.name + "::de::") or a == c.name + "::de::Override":
            continue
        ms = c.methods_of_impl(i)
        fwd = 0
        for name, body in ms.items():
            calls = [t for b in [body] + c.closures_of(body) for _, t in b.calls()]
            if any((t["call"].get("trait") or "").startswith(c.name + "::de::") for t in calls):
                fwd += 1
        if ms and fwd >= len(ms) - 1 and len(ms) >= 20:
            out.add(a)
    return out


# ---------------------------------------------------------------------------------- R1.5
def float_tests(body, cfg, bb, tr, vlocal):
    """(positive_tests, negative_tests) among {'NaN','inf','-inf'} that block bb is control dependent on"""
    pos, neg = set(), set()
    for s, allowed, allv in dt.edge_conditions(cfg, bb):
        atom = dt.switch_atom(body, s)
        pol = dt.bool_polarity(allowed)
        test = None
        if atom[0] == "call":
            t = atom[1]
            if t["call"].get("name") == "is_nan" and t["args"] and vlocal in tr.root_locals(t["args"][0]):
                test = "NaN"
        elif atom[0] == "bin" and atom[1] in ("Eq", "Ne"):
            a, b = atom[2], atom[3]
            for x, y in ((a, b), (b, a)):
                r = dt.resolve_copy(body, y)
                if r[0] == "const" and "float" in r[1] and vlocal in tr.root_locals(x):
                    test = r[1]["float"]
                    if atom[1] == "Ne" and pol is not None:
                        pol = not pol
        if test is None or pol is None:
            continue
        (pos if pol else neg).add(test)
    return pos, neg


# further numeric key texts other Conjure implementations (and this one's Display) produce: exponents with a sign, fractions below
# one, and the long exponent-free spellings of very large / very small doubles
NUMERIC_KEY_TEXTS = ["1e+3", "1E+21", "1e-3", "0.5", "-0.125", "1" + "0" * 39, "0." + "0" * 40 + "1"]


def check_float_writer(ctx, c, body, who):
    """serialize_f32/f64 of a JSON behaviour as a decision table: the function is evaluated by constant propagation for NaN,
    +inf, -inf and finite values (local helpers and sibling behaviours interpreted along the path); the call it ends in is
    the verdict.  Independent of how the tests are arranged (if-chain, early return, helper returning Option<&str>)."""
    from .. import minterp
    I = minterp.Interp(ctx.F, c, inline=lambda d_, rid: rid != body.id and rid.startswith("conjure_serde::"), max_depth=3)
    cases = [("NaN", float("nan"), "NaN"), ("NaN", -float("nan"), "NaN"), ("inf", float("inf"), "Infinity"), ("-inf", float("-inf"), "-Infinity"), ("finite", 1.5, None), ("finite", -0.0, None), ("finite", 1e300, None), ("finite", -1e39, None), ("finite", 5e-324, None)]
    bad, rows = [], []
    for label, v, spelling in cases:
        try:
            r = I.run(body, [("sym", "ser")] * (body.argc - 1) + [v])
        except minterp.Unsupported as e:
            bad.append(f"{label}: left the analysable fragment ({e})")
            continue
        if not (isinstance(r, tuple) and r and r[0] == "call"):
            bad.append(f"{label}: result {r!r}")
            continue
        name = r[1].split("::")[-1]
        arg = r[2][-1] if r[2] else None
        rows.append((label, name, arg if isinstance(arg, str) else "value"))
        if spelling is not None:
            if not (name == "serialize_str" and arg == spelling):
                bad.append(f"{label} is written through {name}({arg!r}); the Conjure spelling is the string {spelling!r}")
        else:
            same = isinstance(arg, float) and (arg == v or (arg != arg and v != v))
            if not (name in ("serialize_f64", "serialize_f32", "collect_str") and same):
                bad.append(f"a finite value ({v}) is written through {name}({arg!r}); it must take the ordinary number path with the value itself")
    ctx.check(not bad, "R1.5", body.loc(), f"{who}|writer-table", f"{who}: " + "; ".join(bad[:3]),
              instance=f"{who}: NaN/Infinity/-Infinity as strings, finite values as numbers ({sorted(set((l, n) for l, n, _ in rows))})")


def spelling_tables(c, body):
    """[(const item path, sorted [(spelling, float)])] for the constant (str, float) tables a body or its closures reference"""
    out = []
    items = set()

    def walk(o):
        if isinstance(o, dict):
            cst = o.get("c")
            if isinstance(cst, dict) and isinstance(cst.get("item"), str):
                items.add(cst["item"])
            for v in o.values():
                walk(v)
        elif isinstance(o, list):
            for v in o:
                walk(v)
    for x in [body] + c.closures_of(body):
        walk(x.d.get("blocks"))
        walk(x.d.get("promoted"))
    for it in sorted(items):
        cb = [x for x in c.bodies if x.kind in ("const", "static") and x.path == it]
        if cb:
            pairs = []
            for bb, j, s_ in cb[0].stmts():
                if s_["r"].get("agg") == "tuple" and len(s_["r"]["ops"]) == 2:
                    a_, b_ = [(o.get("c") or {}) for o in s_["r"]["ops"]]
                    if "str" in a_ and "float" in b_:
                        pairs.append((a_["str"], b_["float"]))
            if pairs:
                out.append((it, sorted(pairs)))
    # inline form: the (spelling, value) tuples are built in the body itself (array literal handed to a search helper)
    inline = []
    for x in [body] + c.closures_of(body):
        for bb, j, s_ in x.stmts():
            if s_["r"].get("agg") == "tuple" and len(s_["r"]["ops"]) == 2:
                a_ = dt.resolve_const(x, s_["r"]["ops"][0]) or {}
                b_ = dt.resolve_const(x, s_["r"]["ops"][1]) or {}
                if "str" in a_ and "float" in b_:
                    inline.append((a_["str"], b_["float"]))
    if inline:
        out.append((body.path + "::<inline table>", sorted(inline)))
    return out


def check_float_reader(ctx, c, body, who, width, rule="R1.5"):
    """visit_str of a float visitor: 'NaN'/'Infinity'/'-Infinity' -> visit_fNN(NAN/INF/-INF)"""
    if float_reader_table(ctx, c, body, who, width, rule):
        return True
    if " key " in f" {who} ":
        # (path form) the numeric text of a key is parsed by str::parse::<fNN>() and by nothing else
        fam_ = [body] + c.closures_of(body)
        ps_ = [t for x in fam_ for _, t in x.calls() if t["call"]["name"] == "parse" and t["call"]["def"].startswith("core::str::<impl str>::parse") and [tystr(y) for y in t["call"].get("substs") or []] == [width]]
        others_ = sorted({t["call"]["def"] for x in fam_ for _, t in x.calls() if t["call"]["name"] in ("from_str", "from_slice", "parse") and t not in ps_})
        if ps_ or others_:
            ctx.check(len(ps_) == 1 and not others_, rule, body.loc(), f"{who}|reads|numeric-key", f"{who}: the numeric text of a key must be parsed with str::parse::<{width}>() — the exact inverse of the Display the key writer uses — and with nothing else (found {len(ps_)} such call(s), other parsers {others_})",
                      instance=f"{who}: numeric key text -> str::parse::<{width}>", nontrivial=False)
    cfg = CFG(body)
    seen = {}
    for bb, t in body.calls():
        f = t["call"]
        if f.get("name") in ("visit_f32", "visit_f64") and (f.get("trait") or "").startswith(sw.DE):
            r = dt.resolve_copy(body, t["args"][-1])
            if r[0] != "const" or "float" not in r[1]:
                continue
            val = r[1]["float"]
            pos = set()
            for s, allowed, allv in dt.edge_conditions(cfg, bb):
                atom = dt.switch_atom(body, s)
                pol = dt.bool_polarity(allowed)
                if atom[0] == "call":
                    se = dt.str_eq_const(body, atom[1])
                    if se and pol:
                        pos.add(se[1])
            where = body.loc(t["ln"])
            exp = [k for k, v in SPELL.items() if v == val]
            ctx.check(len(exp) == 1 and pos == {exp[0]} and f["name"] == f"visit_{width}", rule, where, f"{who}|reads|{val}",
                      f"{who}: produces {val} via {f['name']} when the text equals {sorted(pos)}; expected exactly {exp} and visit_{width}",
                      instance=f"{who}: {sorted(pos)} -> {f['name']}({val})")
            seen[val] = pos
    if not seen:
        # table form: a constant table of (spelling, value) pairs searched for the text
        tabs = spelling_tables(c, body)
        vis = [t for x in [body] + c.closures_of(body) for _, t in x.calls() if t["call"].get("name") == f"visit_{width}" and (t["call"].get("trait") or "").startswith(sw.DE)]
        if len(tabs) == 1 and vis:
            want = sorted((k, v) for k, v in SPELL.items())
            ctx.check(tabs[0][1] == want and all(dt.resolve_const(body, t["args"][-1]) is None for t in vis), rule, body.loc(), f"{who}|reads|table",
                      f"{who}: the spelling table {tabs[0][0].split('::')[-1]} holds {tabs[0][1]}; specification: {want}", instance=f"{who}: table {tabs[0][0].split('::')[-1]} = {want} -> visit_{width}")
            return True
        return False
    ctx.check(set(seen) == set(SPELL.values()), rule, body.loc(), f"{who}|reader-complete",
              f"{who}: non-finite values produced {sorted(seen)}, expected NaN, inf, -inf", instance=f"{who}: three spellings read")
    return bool(seen)


def float_reader_table(ctx, c, body, who, width, rule):
    """the reader as a decision table: the function is evaluated (constant propagation through local helpers, classification
    enums, combinators) with the text parameter set to each Conjure spelling and to other texts; the visit call it ends in
    is the verdict.  Returns False when the code leaves the interpretable fragment (the path-based form is used instead)."""
    from .. import minterp
    F = ctx.F

    def inject(ty, text, depth=0):
        ty = strip_refs(ty) if ty else ty
        if not ty or depth > 3:
            return None
        if ty.get("prim") == "str" or ty.get("adt") == "alloc::string::String":
            return text
        a = F.adt(ty.get("adt") or "")
        if not a or not a.get("local"):
            return None
        if a["kind"] == "struct" and len(a["variants"][0]["fields"]) == 1:
            v = inject(a["variants"][0]["fields"][0]["ty"], text, depth + 1)
            return None if v is None else minterp.adt(ty["adt"], 0, [v])
        if a["kind"] == "enum":
            for vi, vr in enumerate(a["variants"]):
                if len(vr["fields"]) == 1 and (strip_refs(vr["fields"][0]["ty"]) or {}).get("adt") == "alloc::string::String":
                    return minterp.adt(ty["adt"], vi, [text])
        return None
    slot = None
    for k in range(1, body.argc + 1):
        if inject(body.local_ty(k), "x") is not None:
            slot = k
    if slot is None:
        return False
    crate_prefix = body.id.split("::")[0] + "::"
    I = minterp.Interp(F, c, inline=lambda d_, rid: rid.startswith(crate_prefix) and rid != body.id, max_depth=4)
    rows = []
    try:
        for text in list(SPELL) + ["x", "nan", "inf", "-inf", "infinity", "", "1.5", "12"] + NUMERIC_KEY_TEXTS:
            args = [("sym", f"a{k}") for k in range(1, body.argc + 1)]
            args[slot - 1] = inject(body.local_ty(slot), text)
            rows.append((text, I.run(body, args)))
    except minterp.Unsupported:
        return False

    def fl(x):
        return "NaN" if isinstance(x, float) and x != x else ("inf" if x == float("inf") else "-inf" if x == float("-inf") else x)
    def visit_const(r):
        is_visit = isinstance(r, tuple) and r and r[0] == "call" and r[1].split("::")[-1] in ("visit_f32", "visit_f64")
        return is_visit, (fl(r[2][-1]) if is_visit and r[2] and isinstance(r[2][-1], float) else None)
    if not any(visit_const(r)[1] is not None for text, r in rows):
        return False     # not a non-finite float reader at all (a forwarding visitor): nothing to decide here
    for text, r in rows:
        is_visit, val = visit_const(r)
        if text in SPELL:
            ctx.check(is_visit and r[1].endswith(f"visit_{width}") and val == SPELL[text], rule, body.loc(), f"{who}|reads|{SPELL[text]}",
                      f"{who}: the text {text!r} produces {minterp.show(I, r)[:80]}; expected visit_{width}({SPELL[text]})", instance=f"{who}: [{text!r}] -> visit_{width}({SPELL[text]})")
        elif " key " in f" {who} ":
            # map keys are always strings on the wire: a numeric text is parsed with the language's own (exact, round-tripping)
            # float parser — the inverse of the Display the key writer uses; texts that are not numbers are not floats
            if text in ("1.5", "12") or text in NUMERIC_KEY_TEXTS:
                ctx.check(is_visit and r[2] and isinstance(r[2][-1], float) and r[2][-1] == float(text), rule, body.loc(), f"{who}|reads|numeric-key",
                          f"{who}: the key text {text!r} produces {minterp.show(I, r)[:80]}; it must be parsed with str::parse::<{width}>() (the exact inverse of the writer's Display) and handed to visit_{width}", instance=f"{who}: numeric key text -> str::parse -> visit_{width}")
            elif text in ("x", ""):
                ctx.check(val is None, rule, body.loc(), f"{who}|reads|other", f"{who}: the text {text!r} produces the float constant {val}", instance=f"{who}: non-numeric texts are not floats")
        else:
            # value position: a JSON string is a double only if it is one of the three spellings
            ctx.check(not is_visit, rule, body.loc(), f"{who}|reads|other", f"{who}: the string {text!r} (not a Conjure spelling) is delivered as a float ({minterp.show(I, r)[:60]}): in value position only \"NaN\", \"Infinity\" and \"-Infinity\" are doubles written as strings",
                      instance=f"{who}: other strings are not doubles")
    ctx.ok(rule, body.loc(), f"{who}: three spellings read")
    return True


def adts_in_call_substs(t):
    out = []
    for s in t["call"].get("substs", []):
        for n in walk_ty(s):
            if "adt" in n:
                out.append(n["adt"])
    return out


def visitor_methods(c, adt, name):
    """bodies of method `name` in any impl for ADT `adt`"""
    out = []
    for i in c.impls:
        if ty_adt(i["self_ty"]) == adt and name in i["items"]:
            b = c.body(i["items"][name])
            if b is not None:
                out.append(b)
    return out


def uses_b64_standard(body, t_or_none=None):
    """every base64 engine constant referenced in body (incl. promoted) -> list of item paths"""
    items = []

    def scan_blocks(blocks):
        for b in blocks:
            for s in b["s"]:
                if "d" in s:
                    _scan_rv(s["r"], items)
            t = b["t"]
            if "call" in t:
                for a in t["args"]:
                    _scan_op(a, items)
    scan_blocks(body.blocks)
    for p in body.d.get("promoted", []):
        scan_blocks(p["blocks"])
    return items


def _scan_op(op, items):
    c = op.get("c") if isinstance(op, dict) else None
    if c and "item" in c and c["item"].startswith("base64::"):
        items.append(c["item"])


def _scan_rv(r, items):
    for k in ("use", "cast", "a", "b"):
        if k in r and isinstance(r[k], dict):
            _scan_op(r[k], items)
    for o in r.get("ops", []):
        _scan_op(o, items)


def run_spellings(ctx, c, res):
    bound = res["bound"]
    # ---- writer side
    jser = bound.get(("json", "ser"))
    if jser is not None:
        vb = find_beh_impl(c, SER_BEH, jser)
        kb = find_beh_impl(c, SER_BEH, vb["assoc_tys"]["KeyBehavior"]) if vb else None
        for role, bi in (("json value", vb), ("json key", kb)):
            if bi is None:
                ctx.violation("R1.5", c.name, f"{role}|impl", f"behaviour impl for {role} not found")
                continue
            ms = c.methods_of_impl(bi)
            for m in ("serialize_f32", "serialize_f64"):
                if m not in ms:
                    ctx.violation("R1.5", f"{bi['file']}:{bi['line']}", f"{role}|{m}|missing",
                                  f"{role} behaviour {tystr(bi['self_ty'])} does not override {m}: non-finite floats would be written as JSON null")
                    continue
                check_float_writer(ctx, c, ms[m], f"{role} {m}")
            # bytes -> Base64Display::new(v, &STANDARD) -> collect_str
            if "serialize_bytes" not in ms:
                ctx.violation("R1.5", f"{bi['file']}:{bi['line']}", f"{role}|serialize_bytes|missing",
                              f"{role} behaviour does not override serialize_bytes (binary must be Base64 text in JSON)")
            else:
                from .. import inline as _inline
                # a behaviour may delegate to its sibling behaviour's serialize_bytes (same body): look through that call
                b = _inline.expand(c, ms["serialize_bytes"], depth=1, pred=lambda cb: cb.name == "serialize_bytes" and cb.id.startswith("conjure_serde::json::"))
                engines = uses_b64_standard(b)
                disp = [t for _, t in b.calls() if "Base64Display" in t["call"]["def"]]
                sink = [t for _, t in b.calls() if t["call"].get("name") in ("collect_str", "serialize_str")]
                ctx.check(engines == [B64_STD] and len(disp) == 1 and len(sink) == 1, "R1.5", b.loc(), f"{role}|serialize_bytes|engine",
                          f"{role} serialize_bytes: engines {engines}, Base64Display calls {len(disp)}, string sinks {len(sink)}; expected one padded standard-alphabet display written as a string",
                          instance=f"{role} serialize_bytes -> Base64Display(STANDARD) -> {sink[0]['call']['name'] if sink else '?'}")
            # bool keys
            if role == "json key":
                if "serialize_bool" not in ms:
                    ctx.violation("R1.5", f"{bi['file']}:{bi['line']}", "json key|serialize_bool|missing", "key behaviour does not override serialize_bool (keys must be strings)")
                else:
                    b = ms["serialize_bool"]
                    cfg = CFG(b)
                    got = {}
                    for bb, t in b.calls():
                        if t["call"].get("name") == "serialize_str":
                            r = dt.resolve_copy(b, t["args"][1])
                            cs = r[1].get("str") if r[0] == "const" else None
                            pol = None
                            for s, allowed, allv in dt.edge_conditions(cfg, bb):
                                atom = dt.switch_atom(b, s)
                                if atom[0] == "place" and place_local(atom[1]) == 2:
                                    pol = dt.bool_polarity(allowed)
                            got[cs] = pol
                    ctx.check(got == {"true": True, "false": False}, "R1.5", b.loc(), "json key|serialize_bool|table",
                              f"boolean key spellings {got}, expected 'true' iff v, 'false' iff !v", instance=f"json key bool table {got}")
            else:
                ctx.check("serialize_bool" not in ms, "R1.5", f"{bi['file']}:{bi['line']}", "json value|serialize_bool",
                          "JSON value behaviour overrides serialize_bool; boolean values must be native JSON booleans",
                          instance="json value bool native", nontrivial=False)
    sser = bound.get(("smile", "ser"))
    if sser is not None:
        vb = find_beh_impl(c, SER_BEH, sser)
        if vb is not None:
            over = [m for m in vb["items"] if m.startswith("serialize_")]
            ctx.check(not over, "R1.5", f"{vb['file']}:{vb['line']}", "smile value|native",
                      f"Smile value behaviour overrides {over}; Smile carries floats and binary natively", instance="smile value behaviour: floats/binary native")
        # raw_binary(true)
        rb = []
        for b in c.bodies:
            for bb, t in b.calls():
                if t["call"].get("name") == "raw_binary" and "serde_smile" in t["call"]["def"]:
                    r = dt.resolve_copy(b, t["args"][-1])
                    rb.append((b, t, r[1].get("bool") if r[0] == "const" else None))
        ctx.check(len(rb) >= 1 and all(v is True for _, _, v in rb), "R1.5", rb[0][0].loc(rb[0][1]["ln"]) if rb else c.name, "smile|raw_binary",
                  f"Smile serializer construction: raw_binary calls {[(b.id, v) for b, _, v in rb]}, expected raw_binary(true)",
                  instance="smile::Serializer::new -> raw_binary(true)")
    # ---- reader side
    jcl = bound.get(("json", "client"))
    if jcl is not None:
        vb = find_beh_impl(c, DE_BEH, jcl)
        kb = find_beh_impl(c, DE_BEH, vb["assoc_tys"]["KeyBehavior"]) if vb else None
        for role, bi in (("json client value", vb), ("json client key", kb)):
            if bi is None:
                ctx.violation("R1.5", c.name, f"{role}|impl", f"behaviour impl for {role} not found")
                continue
            ms = c.methods_of_impl(bi)
            for m, width in (("deserialize_f32", "f32"), ("deserialize_f64", "f64")):
                if m not in ms:
                    ctx.violation("R1.5", f"{bi['file']}:{bi['line']}", f"{role}|{m}|missing", f"{role} behaviour does not override {m}: 'NaN'/'Infinity' strings would be rejected")
                    continue
                found = False
                for bb, t in ms[m].calls():
                    if not (t["call"].get("trait") or "").startswith(sw.DE):
                        continue
                    for a in adts_in_call_substs(t):
                        if a.startswith(c.name + "::"):
                            for vb_ in visitor_methods(c, a, "visit_str"):
                                if check_float_reader(ctx, c, vb_, f"{role} {m} via {a.split('::')[-1]}", width):
                                    found = True
                ctx.check(found, "R1.5", ms[m].loc(), f"{role}|{m}|reader", f"{role} {m}: no visitor with the non-finite spelling table is installed")
            for m in ("deserialize_bytes", "deserialize_byte_buf"):
                if m not in ms:
                    ctx.violation("R1.5", f"{bi['file']}:{bi['line']}", f"{role}|{m}|missing", f"{role} behaviour does not override {m} (Base64 text expected)")
                    continue
                found = False
                for bb, t in ms[m].calls():
                    for a in adts_in_call_substs(t):
                        if a.startswith(c.name + "::"):
                            for vb_ in visitor_methods(c, a, "visit_str"):
                                eng = uses_b64_standard(vb_)
                                dec = [x for _, x in vb_.calls() if x["call"]["def"] == "base64::engine::Engine::decode"]
                                vis = [x for _, x in vb_.calls() if x["call"].get("name") == "visit_byte_buf"]
                                if dec:
                                    found = True
                                    ctx.check(eng == [B64_STD] and len(dec) == 1 and len(vis) == 1, "R1.5", vb_.loc(), f"{role}|{m}|engine",
                                              f"{role} {m}: decodes with engines {eng}; must be the padded standard alphabet (same constant as the writer)",
                                              instance=f"{role} {m}: STANDARD.decode -> visit_byte_buf")
                ctx.check(found, "R1.5", ms[m].loc(), f"{role}|{m}|reader", f"{role} {m}: no Base64-decoding visitor installed")
            if role == "json client key":
                if "deserialize_bool" not in ms:
                    ctx.violation("R1.5", f"{bi['file']}:{bi['line']}", f"{role}|deserialize_bool|missing", "key behaviour does not override deserialize_bool")
                else:
                    found = False
                    for bb, t in ms["deserialize_bool"].calls():
                        for a in adts_in_call_substs(t):
                            if a.startswith(c.name + "::"):
                                for vb_ in visitor_methods(c, a, "visit_str"):
                                    parse = [x for _, x in vb_.calls() if x["call"].get("name") == "parse" and any(tystr(s) == "bool" for s in x["call"]["substs"])]
                                    vis = [x for _, x in vb_.calls() if x["call"].get("name") == "visit_bool"]
                                    if parse and vis:
                                        found = True
                    ctx.check(found, "R1.5", ms["deserialize_bool"].loc(), f"{role}|deserialize_bool|reader",
                              "boolean keys: no visitor that parses the key text with str::parse::<bool> (accepts exactly 'true'/'false', the writer's spellings)",
                              instance="json key bool: str::parse::<bool> -> visit_bool")
    # ---- every base64 engine constant in the workspace is STANDARD
    total = 0
    for cn in ("conjure_serde", "conjure_object", "conjure_http", "conjure_error"):
        cc = ctx.F.crate(cn)
        for b in cc.bodies:
            for it in uses_b64_standard(b):
                total += 1
                ctx.check(it == B64_STD, "R1.5", b.loc(), f"{b.id}|engine|{it}", f"{b.id} references Base64 engine {it}; only the padded standard alphabet may be used",
                          instance=f"{b.id}: {it}", nontrivial=False)
    ctx.floor("R1.5", "base64 engine references", total, 3)


# ---------------------------------------------------------------------------------- R1.6
def run_end(ctx, c):
    n = 0
    entry_adts = set()
    for i in sw.entry_impls(c, sw.DE + "Deserializer"):
        entry_adts.add(ty_adt(i["self_ty"]))
    from .. import inline
    for b in c.bodies:
        if b.kind != "fn" or b.d.get("vis") != "pub":
            continue
        # the deserialize-then-end tail may live in a private helper shared by the entry points
        b = inline.expand(c, b, depth=2, pred=lambda cb: cb.d.get("vis") != "pub", lower=True)
        des_all = [(bb, t) for bb, t in b.calls() if t["call"]["def"] == sw.DE + "Deserialize::deserialize" and len(t["call"].get("substs") or []) > 1]
        des = [(bb, t) for bb, t in des_all if ty_adt(t["call"]["substs"][1]) in entry_adts]
        if des_all and entry_adts and any(ty_adt(strip_refs(a_)) in entry_adts for a_ in [b.local_ty(k_) for k_ in range(len(b.d["locals"]))] if a_):
            # a convenience function that builds a Conjure deserializer must also deserialize *through* it (not through the
            # serde_json / serde_smile deserializer it wraps, which knows nothing of the Conjure behaviours), and through the
            # flavour its name promises
            for bb_, t_ in des_all:
                a_ = ty_adt(t_["call"]["substs"][1]) or tystr(t_["call"]["substs"][1])
                flavour_ok = not (b.name.startswith("server_") and "Client" in a_.split("::")[-1]) and not (b.name.startswith("client_") and "Server" in a_.split("::")[-1])
                ctx.check(a_ in entry_adts and flavour_ok, "R1.6", b.loc(t_["ln"]), f"{b.id}|deserializes-through-wrapper",
                          f"{b.id}: the value is deserialized with {a_.split('::')[-1] if '::' in a_ else a_}, not with the Conjure {'server' if b.name.startswith('server_') else 'client'} deserializer this function constructs: the Conjure behaviours (strictness, key and double handling) are bypassed",
                          instance=f"{b.name}: T::deserialize(&mut {a_.split('::')[-1]})")
        if not des:
            continue
        if b.argc >= 1 and "_from_" in b.name:
            derived, work_ = set(), [1]
            while work_:
                l_ = work_.pop()
                if l_ in derived:
                    continue
                derived.add(l_)
                for _, uj, it in dt.uses_of_local(b, l_):
                    if uj != "T" and "d" in it and ("ref" in it["r"] or "use" in it["r"]) and isinstance(it["d"], int):
                        work_.append(it["d"])
            other = sorted({t["call"]["name"] for l_ in derived for _, uj, t in dt.uses_of_local(b, l_) if uj == "T" and "call" in t
                            and not (ty_adt(strip_refs(b.local_ty(place_local(t["dest"])) or {})) in entry_adts or t["call"]["name"] in ("from_reader", "from_str", "from_slice", "from_mut_slice", "new", "as_bytes", "as_ref", "into", "by_ref", "deref", "deref_mut", "borrow"))})
            ctx.check(not other, "R1.6", b.loc(), f"{b.id}|input-to-constructor-only", f"{b.id}: the input source is also handed to {other}: reading from it outside the deserializer (a look-ahead, a short-read shortcut) makes the result depend on how the source delivers its bytes",
                      instance=f"{b.name}: the input goes to the deserializer constructor only", nontrivial=False)
        n += 1
        cfg = CFG(b)
        de_adt = ty_adt(des[0][1]["call"]["substs"][1])
        ends = [(bb, t) for bb, t in b.calls() if t["call"].get("name") == "end" and ty_adt(t["call"].get("self_ty")) == de_adt]
        oks = dt.ok_return_blocks(b)
        if not oks:
            ctx.violation("R1.6", b.loc(), f"{b.id}|ok-return", "no Ok(..) return found")
            continue
        tr = Tracer(b)
        de_local = tr.root_locals(des[0][1]["args"][0])
        for okbb, j, s in oks:
            good = False
            for ebb, et in ends:
                if tr.root_locals(et["args"][0]) == de_local and dt.dominated_by_success(cfg, ctx.F, ebb, okbb) \
                        and cfg.dominates(des[0][0], ebb):
                    good = True
            ctx.check(good, "R1.6", b.loc(s["ln"]), f"{b.id}|end-before-ok",
                      f"{b.id}: the Ok(value) return is not dominated by a successful end() on the same deserializer (trailing input would be accepted)",
                      instance=f"{b.name}: Ok(value) dominated by {de_adt.split('::')[-1]}::end()? Ok-edge")
    ctx.floor("R1.6", "convenience deserialization functions", n, 12)


# ---------------------------------------------------------------------------------- R1.7
def run_forwarders(ctx, c):
    n = 0
    # (a) impls of serde Visitor / Deserializer for local forwarding ADTs whose methods call a local '...2' trait
    for i in c.impls:
        tr = i.get("trait") or ""
        if tr not in (sw.DE + "Visitor", sw.DE + "Deserializer"):
            continue
        a = ty_adt(i["self_ty"]) or ""
        if "ref" in i["self_ty"] or not a.startswith(c.name + "::de::"):
            continue
        if a == c.name + "::de::Override":
            continue
        for name, body in sorted(c.methods_of_impl(i).items()):
            calls = [t for b in [body] + c.closures_of(body) for _, t in b.calls()]
            local_tr = [t for t in calls if (t["call"].get("trait") or "").startswith(c.name + "::de::")]
            if not local_tr:
                continue
            n += 1
            names = {t["call"]["name"] for t in local_tr}
            # wrapping deserializer: wrap_visitor(Delegator, visitor) -> the Delegator's delegate() must call the same-named inner method
            if names == {"wrap_visitor"}:
                ok = False
                got = []
                for t in local_tr:
                    for ad in adts_in_call_substs(t):
                        for db in visitor_methods(c, ad, "delegate"):
                            for _, dtm in db.calls():
                                if (dtm["call"].get("trait") or "") == tr:
                                    got.append(dtm["call"]["name"])
                                    ok = ok or dtm["call"]["name"] == name
                ctx.check(ok and set(got) == {name}, "R1.7", body.loc(), f"{a}|{name}|delegator",
                          f"{a}::{name}: the delegator it installs calls {got}, expected {name}", instance=f"{a.split('::')[-1]}::{name} -> delegate -> inner.{name}")
            else:
                ctx.check(names == {name}, "R1.7", body.loc(), f"{a}|{name}|forward",
                          f"{a}::{name} forwards to {sorted(names)} of the local helper trait, expected {name}", instance=f"{a.split('::')[-1]}::{name} -> {name}")
    # (b) provided methods of the local '2' traits forward to the same-named serde method
    for b in c.bodies:
        it = b.d.get("in_trait") or ""
        if not it.startswith(c.name + "::de::") or it.endswith("::Behavior"):
            continue
        calls = [t for _, t in b.calls() if (t["call"].get("trait") or "").startswith(sw.DE)]
        if not calls:
            continue
        n += 1
        names = {t["call"]["name"] for t in calls}
        ctx.check(names == {b.name}, "R1.7", b.loc(), f"{it}|{b.name}|default", f"default {it}::{b.name} forwards to {sorted(names)}, expected {b.name}",
                  instance=f"default {it.split('::')[-1]}::{b.name} -> serde {b.name}")
    # (c) behaviour trait defaults forward to the same-named serde method on the raw driver
    for beh in (SER_BEH, DE_BEH):
        for b in c.bodies:
            if b.d.get("in_trait") != beh:
                continue
            calls = [t for _, t in b.calls() if (t["call"].get("trait") or "").startswith(("serde_core::"))]
            n += 1
            names = {t["call"]["name"] for t in calls}
            ctx.check(names == {b.name}, "R1.7", b.loc(), f"{beh}|{b.name}|default", f"default {beh}::{b.name} calls {sorted(names)}, expected {b.name}",
                      instance=f"default {beh.split('::')[-2]}::Behavior::{b.name} -> {b.name}")
    # (d) the strict behaviour forwards every non-struct method to the same-named method of the inner behaviour
    ctx.floor("R1.7", "forwarding methods", n, 27 + 31 + 31 + 4 + 6)


def run_human_readable(ctx, c):
    """R1.9: serde's `is_human_readable` (provided default: true) decides how format-sensitive types encode themselves (a uuid
    is 16 raw bytes in a binary format and text in a readable one).  Writer and reader must answer alike at every nesting
    level: an entry serializer / deserializer states its format's constant (JSON true, Smile false) and every wrapper
    forwards the wrapped one's answer — a wrapper relying on the default answers `true` inside Smile and the value written
    under it cannot be read back."""
    n = 0
    consts = {}
    for i in c.impls:
        if i.get("trait") not in ("serde_core::ser::Serializer", "serde_core::de::Deserializer", "serde::ser::Serializer", "serde::de::Deserializer"):
            continue
        n += 1
        st = tystr(i.get("self_ty") or {})
        side = "serializer" if i["trait"].endswith("Serializer") and "::ser::" in i["trait"] else "deserializer"
        entry = st.startswith("&mut ") and ("::json::" in st or "::smile::" in st)
        fmt = "json" if "::json::" in st else "smile" if "::smile::" in st else None
        where = f"{i['file'].split('/repo/')[-1]}:{i['line']}"
        mid = (i.get("items") or {}).get("is_human_readable")
        b = c.body(mid) if mid else None
        key = f"{st}|{side}|is_human_readable"
        if b is None:
            if entry and fmt == "json":
                ctx.ok("R1.9", where, f"{st}: JSON {side} keeps serde's default (human readable)")
                consts[(fmt, side)] = True
                continue
            ctx.violation("R1.9", where, key, f"{st} ({side}) does not define is_human_readable: serde's default answers `true`, so a format-sensitive value (uuid) nested under this {'wrapper' if not entry else 'entry point'} "
                          f"is {'written' if side == 'serializer' else 'read'} in its text form even in Smile, where the other side uses the binary form — it does not round-trip")
            continue
        fwd = [t for _, t in b.calls() if t["call"]["name"] == "is_human_readable"]
        const = None
        for bb, j, s_ in b.stmts():
            if place_local(s_["d"]) == 0 and "use" in s_["r"] and isinstance(s_["r"]["use"].get("c"), dict) and "bool" in s_["r"]["use"]["c"]:
                const = s_["r"]["use"]["c"]["bool"]
        if entry:
            want = fmt == "json"
            ok = (const is want and not fwd) or (fwd and const is None)
            consts[(fmt, side)] = const if const is not None else "forwarded"
            ctx.check(ok, "R1.9", b.loc(), key, f"{st}: is_human_readable must answer {str(want).lower()} for {fmt} (found {'a forwarded answer' if fwd else const})", instance=f"{st}: {fmt} {side} answers {str(want).lower()}")
        else:
            ctx.check(bool(fwd) and const is None, "R1.9", b.loc(), key, f"{st}: a wrapper must forward the wrapped {side}'s is_human_readable (found {'constant ' + str(const) if const is not None else 'no forwarding call'})",
                      instance=f"{st}: forwards is_human_readable")
    ctx.floor("R1.9", "Serializer / Deserializer impls in conjure_serde", n, 6)


def run(ctx):
    ctx.explanation = EXPLANATION
    ctx.assumptions = ["rustc type checking / trait resolution (facts are the compiler's own MIR)",
                       "serde, serde_json, serde-smile, base64 behave as documented",
                       "serde-derive generated code drives (de)serializers only through the serde traits"]
    c = ctx.F.crate("conjure_serde")
    ctx.units["conjure_serde bodies"] = len(c.bodies)
    ctx.units["conjure_serde impls"] = len(c.impls)
    res = run_wrap(ctx, c)
    run_spellings(ctx, c, res)
    run_end(ctx, c)
    run_forwarders(ctx, c)
    run_human_readable(ctx, c)
    from .. import tls as _tls
    _tls.check(ctx, c, "R1.10", "every call must round-trip whatever happened before on the same thread")
    # ---------------- R1.8 the server-side behaviour wrapper forwards every serde method to the same-named method
    from . import c05
    ctx.include(c05, {"R5.1"}, "R1.8", "values decoded by the server deserializers must equal those of the client deserializers (a behaviour method forwarding to a different inner method changes the decoded value on the server only)")

