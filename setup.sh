#!/bin/sh
# builds the analysis tools offline (run once after a fresh restore)
set -e
cd "$(dirname "$0")"
export CARGO_NET_OFFLINE=true
(cd mirfacts && cargo +nightly build --release --offline)
if [ -d tmpl ]; then
  [ -f tmpl/Cargo.lock ] || cp /repo/Cargo.lock tmpl/Cargo.lock
  (cd tmpl && cargo build --release --offline)
fi
echo setup ok
