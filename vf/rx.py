"""Small regex -> DFA engine for language equivalence (subset: literals, escapes, classes with ranges,
groups (capturing / non-capturing), alternation, * + ? {m,n}, anchors ^ $ at the ends, (?x) verbose mode)."""

ALPHABET = list(range(0, 129))  # 0..127 ASCII, 128 = any non-ASCII byte/char
NONASCII = 128


class Node:
    def __init__(self, kind, **kw):
        self.kind = kind
        self.__dict__.update(kw)


class Parser:
    def __init__(self, src):
        self.verbose = False
        s = src
        while s.startswith("(?"):
            end = s.index(")")
            flags = s[2:end]
            if not all(ch in "xims-u" for ch in flags):
                break
            if "x" in flags:
                self.verbose = True
            s = s[end + 1:]
        self.s = s
        self.i = 0
        self.groups = []
        self.anchored_start = False
        self.anchored_end = False

    def peek(self):
        self.skip_ws()
        return self.s[self.i] if self.i < len(self.s) else None

    def skip_ws(self):
        if not self.verbose:
            return
        while self.i < len(self.s):
            ch = self.s[self.i]
            if ch in " \t\r\n":
                self.i += 1
            elif ch == "#":
                while self.i < len(self.s) and self.s[self.i] != "\n":
                    self.i += 1
            else:
                break

    def parse(self):
        n = self.alt()
        self.skip_ws()
        if self.i != len(self.s):
            raise ValueError(f"trailing regex input at {self.i}: {self.s[self.i:self.i+10]!r}")
        return n

    def alt(self):
        items = [self.concat()]
        while self.peek() == "|":
            self.i += 1
            items.append(self.concat())
        return items[0] if len(items) == 1 else Node("alt", items=items)

    def concat(self):
        items = []
        while True:
            ch = self.peek()
            if ch is None or ch in "|)":
                break
            items.append(self.repeat())
        return Node("cat", items=items)

    def repeat(self):
        a = self.atom()
        while True:
            ch = self.peek()
            if ch == "*":
                self.i += 1
                a = Node("star", item=a)
            elif ch == "+":
                self.i += 1
                a = Node("cat", items=[a, Node("star", item=a)])
            elif ch == "?":
                self.i += 1
                a = Node("alt", items=[a, Node("cat", items=[])])
            elif ch == "{":
                j = self.s.index("}", self.i)
                body = self.s[self.i + 1:j]
                self.i = j + 1
                if "," in body:
                    lo, hi = body.split(",")
                    lo = int(lo or 0)
                    hi = int(hi) if hi.strip() else None
                else:
                    lo = hi = int(body)
                items = [a] * lo
                if hi is None:
                    items.append(Node("star", item=a))
                else:
                    for _ in range(hi - lo):
                        items.append(Node("alt", items=[a, Node("cat", items=[])]))
                a = Node("cat", items=items)
            else:
                return a
            if self.peek() == "?":  # lazy modifier does not change the language
                self.i += 1

    def atom(self):
        ch = self.peek()
        self.i += 1
        if ch == "(":
            cap = True
            if self.s.startswith("?:", self.i):
                cap = False
                self.i += 2
            elif self.s.startswith("?P<", self.i) or self.s.startswith("?<", self.i):
                self.i = self.s.index(">", self.i) + 1
            idx = None
            if cap:
                self.groups.append(None)
                idx = len(self.groups)
            n = self.alt()
            if self.peek() != ")":
                raise ValueError("unbalanced group")
            self.i += 1
            if cap:
                self.groups[idx - 1] = n
                return Node("group", item=n, index=idx)
            return n
        if ch == "[":
            return Node("set", chars=self.cls())
        if ch == ".":
            return Node("set", chars=set(ALPHABET) - {10})
        if ch == "^":
            return Node("bol")
        if ch == "$":
            return Node("eol")
        if ch == "\\":
            return Node("set", chars=self.escape())
        return Node("set", chars={sym(ch)})

    def escape(self):
        ch = self.s[self.i]
        self.i += 1
        table = {"d": set(range(48, 58)), "w": set(range(48, 58)) | set(range(65, 91)) | set(range(97, 123)) | {95, NONASCII},
                 "s": {9, 10, 11, 12, 13, 32}, "n": {10}, "t": {9}, "r": {13}}
        if ch in table:
            return set(table[ch])
        if ch in "DWS":
            return set(ALPHABET) - table[ch.lower()]
        if ch == "x":
            v = int(self.s[self.i:self.i + 2], 16)
            self.i += 2
            return {v if v < 128 else NONASCII}
        if ch in "AzZbB":
            raise ValueError("unsupported anchor escape")
        return {sym(ch)}

    def cls(self):
        neg = False
        if self.s[self.i] == "^":
            neg = True
            self.i += 1
        out = set()
        first = True
        while True:
            ch = self.s[self.i]
            if ch == "]" and not first:
                self.i += 1
                break
            first = False
            self.i += 1
            if ch == "\\":
                cur = self.escape()
            elif ch == "[" and self.s[self.i] == ":":
                raise ValueError("posix classes unsupported")
            else:
                cur = {sym(ch)}
            if self.s[self.i] == "-" and self.s[self.i + 1] != "]" and len(cur) == 1:
                self.i += 1
                hi = self.s[self.i]
                self.i += 1
                if hi == "\\":
                    hs = self.escape()
                    hi_v = next(iter(hs))
                else:
                    hi_v = sym(hi)
                lo_v = next(iter(cur))
                cur = set(range(lo_v, hi_v + 1))
            out |= cur
        return (set(ALPHABET) - out) if neg else out


def sym(ch):
    o = ord(ch)
    return o if o < 128 else NONASCII


class NFA:
    def __init__(self):
        self.n = 0
        self.eps = {}
        self.tr = {}

    def new(self):
        self.n += 1
        return self.n - 1

    def add_eps(self, a, b):
        self.eps.setdefault(a, set()).add(b)

    def add(self, a, chars, b):
        self.tr.setdefault(a, []).append((frozenset(chars), b))


def build(node, nfa):
    """returns (start, end)"""
    s, e = nfa.new(), nfa.new()
    k = node.kind
    if k == "set":
        nfa.add(s, node.chars, e)
    elif k == "cat":
        cur = s
        for it in node.items:
            a, b = build(it, nfa)
            nfa.add_eps(cur, a)
            cur = b
        nfa.add_eps(cur, e)
    elif k == "alt":
        for it in node.items:
            a, b = build(it, nfa)
            nfa.add_eps(s, a)
            nfa.add_eps(b, e)
    elif k == "star":
        a, b = build(node.item, nfa)
        nfa.add_eps(s, a)
        nfa.add_eps(b, a)
        nfa.add_eps(s, e)
        nfa.add_eps(b, e)
    elif k == "group":
        a, b = build(node.item, nfa)
        nfa.add_eps(s, a)
        nfa.add_eps(b, e)
    elif k in ("bol", "eol"):
        nfa.add_eps(s, e)
    else:
        raise ValueError(k)
    return s, e


def strip_anchors(node):
    """returns (node_without_anchors, anchored_start, anchored_end); anchors are only supported at the ends"""
    a_s = a_e = False
    if node.kind == "cat":
        items = list(node.items)
        if items and items[0].kind == "bol":
            a_s = True
            items = items[1:]
        if items and items[-1].kind == "eol":
            a_e = True
            items = items[:-1]
        for it in items:
            if contains_anchor(it):
                raise ValueError("anchor in the middle of the pattern")
        return Node("cat", items=items), a_s, a_e
    if contains_anchor(node):
        raise ValueError("anchors inside alternation unsupported")
    return node, False, False


def contains_anchor(n):
    if n.kind in ("bol", "eol"):
        return True
    if n.kind in ("cat", "alt"):
        return any(contains_anchor(x) for x in n.items)
    if n.kind in ("star", "group"):
        return contains_anchor(n.item)
    return False


class DFA:
    def __init__(self, node):
        nfa = NFA()
        s, e = build(node, nfa)
        self.nfa = nfa

        def closure(states):
            st = list(states)
            seen = set(states)
            while st:
                x = st.pop()
                for y in nfa.eps.get(x, ()):
                    if y not in seen:
                        seen.add(y)
                        st.append(y)
            return frozenset(seen)
        self.start = closure({s})
        self.accept_state = e
        self.trans = {}
        work = [self.start]
        self.states = {self.start}
        while work:
            S = work.pop()
            for a in ALPHABET:
                T = set()
                for x in S:
                    for chars, y in nfa.tr.get(x, ()):
                        if a in chars:
                            T.add(y)
                T = closure(T) if T else frozenset()
                self.trans[(S, a)] = T
                if T not in self.states:
                    self.states.add(T)
                    work.append(T)

    def accepting(self, S):
        return self.accept_state in S


def full_match_dfa(pattern):
    """DFA for the set of strings s such that the (search) regex matches s entirely-anchored semantics:
    unanchored ends are padded with .* (any symbol)"""
    p = Parser(pattern)
    ast = p.parse()
    core, a_s, a_e = strip_anchors(ast)
    anyc = Node("star", item=Node("set", chars=set(ALPHABET)))
    items = ([] if a_s else [anyc]) + [core] + ([] if a_e else [anyc])
    return DFA(Node("cat", items=items)), p, (a_s, a_e)


def difference_witness(d1, d2, limit=200000):
    """a shortest string accepted by exactly one of the DFAs, or None when the languages are equal"""
    start = (d1.start, d2.start)
    seen = {start: None}
    queue = [start]
    qi = 0
    while qi < len(queue):
        S, T = queue[qi]
        qi += 1
        if d1.accepting(S) != d2.accepting(T):
            out = []
            cur = (S, T)
            while seen[cur] is not None:
                prev, a = seen[cur]
                out.append(a)
                cur = prev
            return "".join(chr(a) if a < 128 else "é" for a in reversed(out)), d1.accepting(S)
        for a in ALPHABET:
            nxt = (d1.trans[(S, a)], d2.trans[(T, a)])
            if nxt not in seen:
                seen[nxt] = ((S, T), a)
                queue.append(nxt)
                if len(seen) > limit:
                    raise ValueError("state explosion")
    return None


def equivalent(p1, p2):
    d1, _, _ = full_match_dfa(p1)
    d2, _, _ = full_match_dfa(p2)
    return difference_witness(d1, d2)


def group_patterns(pattern):
    """[DFA of each capturing group's own sub-language] in index order"""
    p = Parser(pattern)
    p.parse()
    return [DFA(Node("cat", items=[g])) for g in p.groups]
